----------------------------- MODULE ChainTrace -----------------------------
(***************************************************************************)
(* Trace validation for Chain (Leg T of C01, C02, C03, C04, C19): every    *)
(* execution of the real Manager/DBStore recorded by harness/chainx        *)
(* TestDriver must be a behaviour of Chain.tla, and every invariant of     *)
(* Chain is evaluated in every state of it.  One NDJSON line per spec      *)
(* action; $TRACE is the event file, $TREES the abstract trees of the      *)
(* histories (one tree per Reset).                                         *)
(*                                                                         *)
(*   Reset{t}                 new history on tree t                        *)
(*   Submit{batch}            AddBlocks called                             *)
(*   Revert{b} / Apply{b}     the store saw RevertBlock / ApplyBlock       *)
(*   MidFlush                 a commit inside a block operation            *)
(*   EndFlush                 store.Flush at the end of reorgTo            *)
(*   Done{ret,mem,best,blk,sta,utxo,fc,exp}   AddBlocks returned; projection *)
(*   Prune{h}, Poll{s,from,max,rus,aus,err}, Crash, Reopened{...}          *)
(* FailReorg / PanicStep are not observable at the store interface and are *)
(* silent steps (at most two per call).                                    *)
(***************************************************************************)
EXTENDS Chain, Json, IOUtils

TreesJ == JsonDeserialize(IOEnv.TREES)
ToSet(s) == {s[i] : i \in 1..Len(s)}
\* the trees are used as deserialised (a constant TLC evaluates once)
TreesC == TreesJ
SubsC == {"s1", "s2", "s3"}
LisC == {"r1", "r2", "p1"}

Log == ndJsonDeserialize(IOEnv.TRACE)
N == Len(Log)

VARIABLE l
tvars == <<vars, l>>
Ev == Log[l]
Step(op) == l <= N /\ Ev.op = op /\ l' = l + 1

TraceInit == Init /\ l = 1

TReset ==
    /\ Step("Reset")
    /\ t' = Ev.t
    /\ blk' = [b \in 1..Trees[Ev.t].n |-> IF b = 1 THEN "supp" ELSE "none"]
    /\ sta' = [b \in 1..Trees[Ev.t].n |-> IF b = 1 THEN "full" ELSE "none"]
    /\ best' = <<1>> /\ mem' = 1 /\ pc' = Idle /\ ret' = "ok"
    /\ led' = [utxo |-> ToSet(Trees[Ev.t].eff[1].creates), fc |-> {}, exp |-> [h \in 0..Trees[Ev.t].maxH |-> <<>>]]
    /\ dur' = [blk |-> blk', sta |-> sta', best |-> best', led |-> led']
    /\ subs' = [s \in Subs |-> 0]
    /\ notif' = 0 /\ seen' = {1}
    /\ lis' = [x \in Lis |-> -1]
    /\ act' = [op |-> "Init"]

TSub      == Step("Sub")      /\ Subscribe(Ev.s)
TUnsub    == Step("Unsub")    /\ Unsubscribe(Ev.s)
TSubmit   == Step("Submit")   /\ Submit(Ev.batch)
TSubmitV  == Step("SubmitV")  /\ SubmitValidated(Ev.batch) /\ \A i \in 1..Len(Ev.batch) : Cls(Ev.batch[i]) = "ok" /\ H(Ev.batch[i]) > ReqH
TRevert   == Step("Revert")   /\ mem = Ev.b /\ RevertStep
TApply    == Step("Apply")    /\ ApplyStep /\ mem' = Ev.b
TMidFlush == Step("MidFlush") /\ MidFlush
TFinish   == Step("EndFlush") /\ FinishReorg
TFail     == FailReorg /\ l <= N /\ UNCHANGED l
TPanic    == PanicStep /\ l <= N /\ UNCHANGED l
TPrune    == Step("Prune")    /\ Prune(Ev.h)
TCrash    == Step("Crash")    /\ Crash

ExpOf(e) == [h \in Heights |-> e[h + 1]]
TripleSet(s) == {<<s[i][1], s[i][2], s[i][3]>> : i \in 1..Len(s)}

\* the call returned: result and complete projection of the real node must equal the spec state
TDone ==
    /\ Step("Done")
    /\ pc.k = "idle"
    /\ ret = Ev.ret
    /\ mem = Ev.mem
    /\ best = Ev.best
    /\ blk = Ev.blk
    /\ sta = Ev.sta
    /\ led.utxo = ToSet(Ev.utxo)
    /\ led.fc = TripleSet(Ev.fc)
    /\ led.exp = ExpOf(Ev.exp)
    /\ notif = Ev.notif
    /\ lis = Ev.lis                \* every registered callback's count, every unregistered one silent
    /\ Ev.stateOk
    /\ UNCHANGED vars

\* NewDBStore + NewManager on the committed image reopened to exactly the image
TReopened ==
    /\ Step("Reopened")
    /\ pc.k = "idle" /\ Ev.ret = "ok"
    /\ mem = Ev.mem /\ best = Ev.best /\ blk = Ev.blk /\ sta = Ev.sta
    /\ led.utxo = ToSet(Ev.utxo) /\ led.fc = TripleSet(Ev.fc) /\ led.exp = ExpOf(Ev.exp)
    /\ Ev.stateOk
    /\ UNCHANGED vars

\* concurrent driver: a call's result without a projection (other calls may follow at once), and
\* the projection of the quiescent node at the end
TDoneLite == Step("DoneLite") /\ pc.k = "idle" /\ ret = Ev.ret /\ UNCHANGED vars
TState ==
    /\ Step("State")
    /\ pc.k = "idle"
    /\ mem = Ev.mem /\ best = Ev.best /\ blk = Ev.blk /\ sta = Ev.sta
    /\ led.utxo = ToSet(Ev.utxo) /\ led.fc = TripleSet(Ev.fc) /\ led.exp = ExpOf(Ev.exp)
    /\ Ev.stateOk
    /\ UNCHANGED vars

TPoll ==
    /\ Step("Poll")
    /\ subs[Ev.s] = Ev.from
    /\ Poll(Ev.s, Ev.max)
    /\ act'.rus = Ev.rus /\ act'.aus = Ev.aus /\ act'.err = Ev.err
    /\ (Ev.err = "ok" /\ subs'[Ev.s] = mem) => Ev.shadowOk    \* caught up: shadow ledger = linear ledger

TMinReorg == Step("MinReorg") /\ pc.k = "idle" /\ MinReorg = Ev.b /\ UNCHANGED vars

\* read-only queries: the real answers must be exactly the specification's
THist == Step("Hist") /\ pc.k = "idle" /\ Ev.rus = HistoryIds /\ UNCHANGED vars
THdrs == /\ Step("Hdrs") /\ pc.k = "idle"
         /\ LET r == HeadersOf(Ev.b, Ev.max) IN Ev.err = r.err /\ (r.err = "ok" => Ev.aus = r.ids /\ Ev.from = r.rem)
         /\ UNCHANGED vars
TBlks == /\ Step("Blks") /\ pc.k = "idle"
         /\ LET r == BlocksOf(Ev.rus, Ev.max) IN Ev.err = r.err /\ (r.err = "ok" => Ev.aus = r.ids /\ Ev.from = r.rem)
         /\ UNCHANGED vars

TraceNext ==
    \/ TReset \/ TSub \/ TUnsub \/ TSubmit \/ TSubmitV \/ THist \/ THdrs \/ TBlks \/ TRevert \/ TApply \/ TMidFlush \/ TFinish \/ TFail \/ TPanic
    \/ TPrune \/ TCrash \/ TDoneLite \/ TState \/ TDone \/ TReopened \/ TPoll \/ TMinReorg

TraceSpec == TraceInit /\ [][TraceNext]_tvars

ASSUME TLCSet(1, 0)
HWM == TLCSet(1, IF l - 1 > TLCGet(1) THEN l - 1 ELSE TLCGet(1))
TraceAccepted ==
    /\ PrintT(<<"HWM", TLCGet(1), "of", N>>)
    /\ TLCGet(1) = N
=============================================================================
