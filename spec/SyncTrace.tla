----------------------------- MODULE SyncTrace -----------------------------
(***************************************************************************)
(* Trace validation for the syncer (properties C12 and C11, Leg T).        *)
(*                                                                         *)
(* The NDJSON file ($TRACE) holds, per scenario, one Tree event (the block *)
(* tree with oracle-computed classes and work ranks) and, per honest node, *)
(* a Node event (initial chain state) followed by EVERY call the node's    *)
(* real syncer made on its syncer.ChainManager (AddBlocks,                 *)
(* AddValidatedV2Blocks, AddV2PoolTransactions -- recorded by a wrapper    *)
(* around the real chain.Manager, with the manager's tip right after the   *)
(* call) and every PeerStore.Ban call, then an End event.                  *)
(*                                                                         *)
(* Each call must be explained by the chain semantics of SyncChain.tla     *)
(* with exactly the logged error flag and resulting tip, AND must be a call*)
(* the protocol of Sync.tla allows the syncer to make:                     *)
(*   - batches are linked runs of at most BatchMax blocks;                 *)
(*   - AddValidatedV2Blocks only for valid (oracle class ok) blocks above  *)
(*     the require height, with the true consensus states (sok);           *)
(*   - transaction sets are non-empty and based on a known block;          *)
(*   - every rejected submission is followed by a Ban (owed = 0 at End);   *)
(*   - an honest peer is never banned (unless the named deviation is on).  *)
(***************************************************************************)
EXTENDS SyncChain, Json, IOUtils

CONSTANTS BatchMax, DevOutlineSidechainBan

Log == ndJsonDeserialize(IOEnv.TRACE)
N == Len(Log)

VARIABLES
    l,      \* next line to consume
    tl,     \* line of the current Tree event
    known, tip, base,
    owed,   \* rejected submissions not yet followed by a Ban
    nban,   \* Ban calls of this node so far
    garb,   \* ids whose STORED body is a same-id variant that does not validate (never applied, not yet re-delivered)
    ever    \* ids that have been on the best chain at some time (their bodies are validated and never replaced)
tvars == <<l, tl, known, tip, base, owed, nban, garb, ever>>

Ev == Log[l]
T == Log[tl].tree
ReqH == Log[tl].req
Step(op) == l <= N /\ Ev.op = op /\ l' = l + 1

TraceInit ==
    /\ l = 1 /\ tl = 1
    /\ known = {} /\ tip = G /\ base = G /\ owed = 0 /\ nban = 0 /\ garb = {} /\ ever = {}

TTree ==
    /\ Step("Tree")
    /\ tl' = l
    /\ known' = {} /\ tip' = G /\ base' = G /\ owed' = 0 /\ nban' = 0 /\ garb' = {} /\ ever' = {}

TNode ==
    /\ Step("Node")
    /\ known' = Range(Ev.known)
    /\ tip' = Ev.tip
    /\ base' = Ev.base
    /\ Ev.tip \in Range(Ev.known)
    /\ owed' = 0 /\ nban' = 0 /\ garb' = {}
    /\ ever' = AncSet(T, Ev.tip)
    /\ UNCHANGED tl

\* the tree as this node's store sees it: an id whose stored body is a non-validating variant fails on apply
Stored(g) == [T EXCEPT !.cls = [b \in DOMAIN T.par |-> IF b \in g THEN "bad" ELSE T.cls[b]]]

\* AddBlocks stores the body it is given for every block it does not refuse, unless the block has been applied
\* before ("already have this block"): a genuine body heals an id, a same-id variant poisons it
StoredIdx(bs) == LET r == FirstRefused(T, known, bs)
                 IN {i \in DOMAIN bs : (r = 0 \/ i < r) /\ T.id[bs[i]] \notin ever}
GarbAfterAdd(bs) ==
    (garb \ {T.id[bs[i]] : i \in {j \in StoredIdx(bs) : T.id[bs[j]] = bs[j]}})
        \cup {T.id[bs[i]] : i \in {j \in StoredIdx(bs) : T.id[bs[j]] # bs[j] /\ T.cls[bs[j]] # "ok"}}

TAddBlocks ==
    /\ Step("AddBlocks")
    /\ LET bs == Ev.bs
           g1 == GarbAfterAdd(bs)
           r == AddBlocksRes(Stored(g1), known, tip, bs)
       IN /\ Len(bs) \in 1..BatchMax
          /\ Linked(T, bs)
          /\ Len(bs) > 1 => T.h[T.par[bs[1]]] < ReqH
          /\ Ev.err = r.err
          /\ Ev.tip = r.tip
          /\ known' = r.known
          /\ tip' = r.tip
          /\ garb' = g1
          /\ ever' = ever \cup AncSet(T, r.tip)
          /\ owed' = IF r.err THEN owed + 1 ELSE owed
    /\ UNCHANGED <<tl, base, nban>>

TAddValidated ==
    /\ Step("AddValidated")
    /\ LET bs == Ev.bs
           g1 == garb \ Ids(T, bs)
           r == AddValidatedRes(Stored(g1), known, tip, bs)
       IN /\ Len(bs) \in 1..BatchMax
          /\ ValidatedOK(T, ReqH, bs)
          /\ Ev.sok
          /\ Ev.err = r.err
          /\ Ev.tip = r.tip
          /\ known' = r.known
          /\ tip' = r.tip
          /\ garb' = g1
          /\ ever' = ever \cup AncSet(T, r.tip)
          /\ owed' = IF r.err THEN owed + 1 ELSE owed
    /\ UNCHANGED <<tl, base, nban>>

TAddV2Pool ==
    /\ Step("AddV2Pool")
    /\ Ev.n > 0
    /\ Ev.bk
    /\ Ev.tip = tip
    /\ UNCHANGED <<tl, known, tip, base, owed, nban, garb, ever>>

IsHonest(who) == Len(who) >= 7 /\ SubSeq(who, 1, 7) = "honest:"

TBan ==
    /\ Step("Ban")
    /\ \/ ~IsHonest(Ev.who) /\ Ev.who # "subnet"
       \/ Ev.who = "subnet" /\ nban > 0
       \/ IsHonest(Ev.who) /\ DevOutlineSidechainBan /\ Ev.kind = "outline-insufficient-work"
    /\ owed' = IF owed > 0 /\ Ev.who # "subnet" THEN owed - 1 ELSE owed
    /\ nban' = nban + 1
    /\ UNCHANGED <<tl, known, tip, base, garb, ever>>

\* quiescence audit of the per-subnet in-flight RPC budget (read through syncer.VerifInflightSubnet while every
\* peer is synced, nothing is announced and the scripted peers are gone): a counter is the number of RUNNING inbound
\* handlers, always -- whatever mix of accepted, rejected-over-budget and erroring RPCs went before, it is 0 at rest
TIdle ==
    /\ Step("Idle")
    /\ Ev.inflight = 0
    /\ Ev.tip = tip
    /\ UNCHANGED <<tl, known, tip, base, owed, nban, garb, ever>>

TEnd ==
    /\ Step("End")
    /\ Ev.tip = tip
    /\ owed = 0
    /\ UNCHANGED <<tl, known, tip, base, owed, nban, garb, ever>>

TraceNext == TTree \/ TNode \/ TAddBlocks \/ TAddValidated \/ TAddV2Pool \/ TBan \/ TIdle \/ TEnd

TraceSpec == TraceInit /\ [][TraceNext]_tvars

\* the node's best chain is valid, linked and stored (AlwaysValid of Sync.tla, per node)
TraceAlwaysValid ==
    tl <= N /\ Log[tl].op = "Tree" /\ known # {} =>
        \A b \in AncSet(T, tip) : T.h[b] >= T.h[base] => T.cls[b] = "ok" /\ b \in known

\* high-water mark of consumed lines (needs -workers 1)
ASSUME TLCSet(1, 0)
HWM == TLCSet(1, IF l - 1 > TLCGet(1) THEN l - 1 ELSE TLCGet(1))
TraceAccepted ==
    /\ PrintT(<<"HWM", TLCGet(1), "of", N>>)
    /\ TLCGet(1) = N
=============================================================================
