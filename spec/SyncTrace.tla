----------------------------- MODULE SyncTrace -----------------------------
(***************************************************************************)
(* Trace validation for the syncer (properties C12 and C11, Leg T).        *)
(*                                                                         *)
(* The NDJSON file ($TRACE) holds, per scenario, one Tree event (the block *)
(* tree with oracle-computed classes and work ranks) and, per honest node, *)
(* a Node event (initial chain state) followed by EVERY call the node's    *)
(* real syncer made on its syncer.ChainManager (AddBlocks,                 *)
(* AddValidatedV2Blocks, AddV2PoolTransactions -- recorded by a wrapper    *)
(* around the real chain.Manager, with the manager's tip right after the   *)
(* call) and every PeerStore.Ban call, then an End event.                  *)
(*                                                                         *)
(* Each call must be explained by the chain semantics of SyncChain.tla     *)
(* with exactly the logged error flag and resulting tip, AND must be a call*)
(* the protocol of Sync.tla allows the syncer to make:                     *)
(*   - batches are linked runs of at most BatchMax blocks;                 *)
(*   - AddValidatedV2Blocks only for valid (oracle class ok) blocks above  *)
(*     the require height, with the true consensus states (sok);           *)
(*   - transaction sets are non-empty and based on a known block;          *)
(*   - every rejected submission is followed by a Ban (owed = 0 at End);   *)
(*   - an honest peer is never banned (unless the named deviation is on).  *)
(***************************************************************************)
EXTENDS SyncChain, Json, IOUtils

CONSTANTS BatchMax, DevOutlineSidechainBan

Log == ndJsonDeserialize(IOEnv.TRACE)
N == Len(Log)

VARIABLES
    l,      \* next line to consume
    tl,     \* line of the current Tree event
    known, tip, base,
    owed,   \* rejected submissions not yet followed by a Ban
    nban    \* Ban calls of this node so far
tvars == <<l, tl, known, tip, base, owed, nban>>

Ev == Log[l]
T == Log[tl].tree
ReqH == Log[tl].req
Step(op) == l <= N /\ Ev.op = op /\ l' = l + 1

TraceInit ==
    /\ l = 1 /\ tl = 1
    /\ known = {} /\ tip = G /\ base = G /\ owed = 0 /\ nban = 0

TTree ==
    /\ Step("Tree")
    /\ tl' = l
    /\ known' = {} /\ tip' = G /\ base' = G /\ owed' = 0 /\ nban' = 0

TNode ==
    /\ Step("Node")
    /\ known' = Range(Ev.known)
    /\ tip' = Ev.tip
    /\ base' = Ev.base
    /\ Ev.tip \in Range(Ev.known)
    /\ owed' = 0 /\ nban' = 0
    /\ UNCHANGED tl

TAddBlocks ==
    /\ Step("AddBlocks")
    /\ LET bs == Ev.bs
           r == AddBlocksRes(T, known, tip, bs)
       IN /\ Len(bs) \in 1..BatchMax
          /\ Linked(T, bs)
          /\ Len(bs) > 1 => T.h[T.par[bs[1]]] < ReqH
          /\ Ev.err = r.err
          /\ Ev.tip = r.tip
          /\ known' = r.known
          /\ tip' = r.tip
          /\ owed' = IF r.err THEN owed + 1 ELSE owed
    /\ UNCHANGED <<tl, base, nban>>

TAddValidated ==
    /\ Step("AddValidated")
    /\ LET bs == Ev.bs
           r == AddValidatedRes(T, known, tip, bs)
       IN /\ Len(bs) \in 1..BatchMax
          /\ ValidatedOK(T, ReqH, bs)
          /\ Ev.sok
          /\ Ev.err = r.err
          /\ Ev.tip = r.tip
          /\ known' = r.known
          /\ tip' = r.tip
          /\ owed' = IF r.err THEN owed + 1 ELSE owed
    /\ UNCHANGED <<tl, base, nban>>

TAddV2Pool ==
    /\ Step("AddV2Pool")
    /\ Ev.n > 0
    /\ Ev.bk
    /\ Ev.tip = tip
    /\ UNCHANGED <<tl, known, tip, base, owed, nban>>

IsHonest(who) == Len(who) >= 7 /\ SubSeq(who, 1, 7) = "honest:"

TBan ==
    /\ Step("Ban")
    /\ \/ ~IsHonest(Ev.who) /\ Ev.who # "subnet"
       \/ Ev.who = "subnet" /\ nban > 0
       \/ IsHonest(Ev.who) /\ DevOutlineSidechainBan /\ Ev.kind = "outline-insufficient-work"
    /\ owed' = IF owed > 0 /\ Ev.who # "subnet" THEN owed - 1 ELSE owed
    /\ nban' = nban + 1
    /\ UNCHANGED <<tl, known, tip, base>>

TEnd ==
    /\ Step("End")
    /\ Ev.tip = tip
    /\ owed = 0
    /\ UNCHANGED <<tl, known, tip, base, owed, nban>>

TraceNext == TTree \/ TNode \/ TAddBlocks \/ TAddValidated \/ TAddV2Pool \/ TBan \/ TEnd

TraceSpec == TraceInit /\ [][TraceNext]_tvars

\* the node's best chain is valid, linked and stored (AlwaysValid of Sync.tla, per node)
TraceAlwaysValid ==
    tl <= N /\ Log[tl].op = "Tree" /\ known # {} =>
        \A b \in AncSet(T, tip) : T.h[b] >= T.h[base] => T.cls[b] = "ok" /\ b \in known

\* high-water mark of consumed lines (needs -workers 1)
ASSUME TLCSet(1, 0)
HWM == TLCSet(1, IF l - 1 > TLCGet(1) THEN l - 1 ELSE TLCGet(1))
TraceAccepted ==
    /\ PrintT(<<"HWM", TLCGet(1), "of", N>>)
    /\ TLCGet(1) = N
=============================================================================
