-------------------------------- MODULE Form --------------------------------
(***************************************************************************)
(* Property C16: contract formation / renewal / refresh between a renter   *)
(* and a host yields a confirmable contract or leaves no trace.            *)
(*                                                                         *)
(* Code: rhp/v4/rpc.go RPCFormContract, RPCRenewContract, rpcRefresh-      *)
(* Contract (renter); rhp/v4/server.go handleRPCFormContract,              *)
(* handleRPCRenewContract, handleRPCRefreshContract (host);                *)
(* wallet/wallet.go FundV2Transaction / ReleaseInputs (reservations).      *)
(*                                                                         *)
(* Two processes (renter, host) exchange four messages over a stream that  *)
(* a man in the middle may cut or corrupt:                                 *)
(*    m1 request (renter inputs, basis)   renter -> host                   *)
(*    m2 host inputs                      host -> renter                   *)
(*    m3 renter signatures                renter -> host                   *)
(*    m4 final transaction set            host -> renter                   *)
(* (9 stands for an RPC error sent instead of m2 / m4.)                    *)
(*                                                                         *)
(* An attempt is described by d = [kind, pv, basis, inp, fault]:           *)
(*   kind   form | renew | refreshFull | refreshPartial                    *)
(*   pv     parameter validity: ok, or where it is rejected (PVClass);     *)
(*          includes "the existing contract is not confirmed yet" (noelem) *)
(*   basis  relation of the renter's chain to the host's: same tip, renter *)
(*          behind, renter on a stale fork the host has seen (fork) or     *)
(*          has not (forkx)                                                *)
(*   inp    renter inputs confirmed (conf) | unconfirmed with a parent     *)
(*          transaction that the host does not have confirmed either       *)
(*          (unconf) | unconfirmed for the renter, but the blocks the      *)
(*          renter lacks confirmed the parent on the host's chain (unconfc)*)
(*          | confirmed, but created by a block of the renter's own stale   *)
(*          fork, i.e. it does not exist below the common ancestor (forkc) *)
(*   fault  none | dial | cutBk / cutAk (message k cut: the sender's write *)
(*          fails / succeeds but the message is lost) | mK<what> (message  *)
(*          K corrupted) | bcast (the host's broadcast fails) | wcloseK    *)
(*          (the host's wallet is shut down while message K is in flight:  *)
(*          funding, signing, releasing and broadcasting a set that is     *)
(*          already negotiated do not depend on the wallet's background    *)
(*          work, so the design -- and the exchange -- is unaffected)      *)
(*                                                                         *)
(* Wallet outputs reserved for attempt i are the token i in rRes / hRes;   *)
(* the contract of attempt i is the token i in hCon (host's contractor),   *)
(* rCon (renter), pool (host's pool), net (reached the network), mined.    *)
(* Token 0 is the contract that exists initially (target of renewals).     *)
(*                                                                         *)
(* The four Dev* constants switch on the behaviour of the implementation   *)
(* where it is known to deviate (known_findings.json); with all of them    *)
(* FALSE the module is the design that satisfies the property.             *)
(***************************************************************************)
EXTENDS Naturals, Sequences, FiniteSets, TLC

CONSTANTS Kinds, PVs, Bases, Inps, Faults,   \* what TLC enumerates
          MaxAttempts,
          DevDialLeak,      \* renew/refresh client: no ReleaseInputs when the stream cannot be opened
          DevBcastFatal,    \* host: a failed broadcast fails the RPC although the contract is recorded and the set pooled
          DevRebaseLeak,    \* host: a failed rebase of the renter inputs leaves the host inputs locked
          DevNoIdCheck      \* renew/refresh client: final set not compared with the negotiated transaction

VARIABLES n,        \* attempts started
          d,        \* descriptor of the current / last attempt
          rpc, hpc, \* program counters
          up, down, \* messages in flight renter->host, host->renter
          link,     \* "down" no stream | "up" | "hclosed" host closed its end | "cut"
          rRes, hRes, hCon, rCon, dead, pool, net, mined,
          act,      \* the contract the renter believes active
          out,      \* result of the current / last attempt: [r, com]
          snap,     \* the state when the attempt started
          streak,   \* consecutive failed attempts and the reserved sets when the streak began
          lbl       \* label of the last step (bookkeeping, hidden by the VIEW)

vars  == <<n, d, rpc, hpc, up, down, link, rRes, hRes, hCon, rCon, dead, pool, net, mined, act, out, snap, streak, lbl>>
view  == <<n, d, rpc, hpc, up, down, link, rRes, hRes, hCon, rCon, dead, pool, net, mined, act, out, snap, streak>>

-----------------------------------------------------------------------------
Renewing(k) == k # "form"
PVClass(pv) == CASE pv = "ok"    -> "ok"
                 [] pv = "rfund" -> "rfund"    \* the renter cannot fund it: fails before anything is sent
                 [] pv = "hfund" -> "hfund"    \* the host cannot fund it
                 [] OTHER        -> "hval"     \* rejected by the host's validation, before it funds
\* "noelem": the renter targets its existing contract before the transaction that created it is
\* confirmed -- the host has recorded the contract but has no chain element for it yet; the handler
\* gives up at the element lookup, which (like validation) comes before it funds anything
PVApplies(k, pv) == /\ (pv \in {"chal", "noelem"} => Renewing(k))
                    /\ (pv = "proof" => k \in {"form", "renew"})
\* with rejected parameters the exchange ends before m2: later fault points cannot be reached
EarlyFaults == {"none", "dial", "cutB1", "cutA1", "cutB2", "cutA2", "m1basis", "m1value"}

Descs == {x \in [kind : Kinds, pv : PVs, basis : Bases, inp : Inps, fault : Faults] :
            /\ PVApplies(x.kind, x.pv)
            /\ (x.inp = "unconfc" => x.basis # "same")   \* needs blocks the renter has not seen
            /\ (x.inp = "forkc" => x.basis \in {"fork", "forkx"})
            /\ (x.pv # "ok" => x.fault \in EarlyFaults)}
NoDesc == [kind |-> "-", pv |-> "-", basis |-> "-", inp |-> "-", fault |-> "-"]

CutB(k) == d.fault = "cutB" \o ToString(k)
CutA(k) == d.fault = "cutA" \o ToString(k)

\* the host rebases the renter inputs (and only them) from the renter's basis to its own; an
\* unconfirmed (ephemeral) input has no proof and is carried across unchanged, its parent
\* transaction comes along in the request and is put into the host's pool before the final set
\* -- unless the host's chain has confirmed it already ("unconfc"): then the host drops it, the
\* input gets its proof from the confirming block, and the final set is the contract transaction
\* alone (shorter than the renter's own set; the renter must accept that)
RebaseFails == \/ d.basis = "forkx"                       \* it never saw the renter's fork
               \/ d.inp = "forkc"                        \* reverting the fork removes the element the input spends
               \/ d.fault = "m1basis"                     \* unknown basis
               \/ (d.basis # "same" /\ d.inp = "conf" /\ d.fault = "m1value")  \* element invalid at the claimed basis
\* the pool rejects the final set when a renter signature does not cover the host's transaction
\* or an input misstates the output it spends
PoolFails   == \/ d.fault \in {"m2id", "m3pol"}
               \/ (d.fault = "m1value" /\ (d.basis = "same" \/ d.inp # "conf"))
\* the renter notices a corrupted final message
M4Detected  == \/ d.fault \in {"m4empty", "m4sig"}
               \/ (d.fault = "m4txn" /\ (d.kind = "form" \/ ~DevNoIdCheck))

Lbl(op, res) == [op |-> op, res |-> res]
Silent == {"rSend", "rRecv", "hRecv", "hSend", "hCheck"}

-----------------------------------------------------------------------------
Init ==
    /\ n = 0 /\ d = NoDesc /\ rpc = "idle" /\ hpc = "idle"
    /\ up = <<>> /\ down = <<>> /\ link = "down"
    /\ rRes = {} /\ hRes = {} /\ hCon = {0} /\ rCon = {0} /\ dead = {} /\ pool = {} /\ net = {} /\ mined = {0}
    /\ act = 0
    /\ out = [r |-> "none", com |-> FALSE]
    /\ snap = [rRes |-> {}, hRes |-> {}, hCon |-> {0}, dead |-> {}, act |-> 0]
    /\ streak = [k |-> 0, rRes |-> {}, hRes |-> {}]
    /\ lbl = Lbl("Init", "ok")

Wallets == <<rRes, hRes>>
Books   == <<hCon, rCon, dead, pool, net, mined, act>>
Wire    == <<up, down, link>>

\* ------------------------------------------------------------------ renter
RStart(x) ==
    /\ rpc = "idle" /\ hpc = "idle" /\ n < MaxAttempts /\ net = {}
    /\ x \in Descs
    /\ n' = n + 1 /\ d' = x /\ rpc' = "fund"
    /\ out' = [r |-> "none", com |-> FALSE]
    /\ snap' = [rRes |-> rRes, hRes |-> hRes, hCon |-> hCon, dead |-> dead, act |-> act]
    /\ lbl' = Lbl("Start", "ok")
    /\ UNCHANGED <<hpc, Wire, Wallets, Books, streak>>

RFund ==
    /\ rpc = "fund"
    /\ IF PVClass(d.pv) = "rfund"
         THEN /\ rpc' = "done" /\ out' = [out EXCEPT !.r = "err"] /\ lbl' = Lbl("rFund", "err") /\ UNCHANGED rRes
         ELSE /\ rpc' = "dial" /\ rRes' = rRes \cup {n} /\ lbl' = Lbl("rFund", "ok") /\ UNCHANGED out
    /\ UNCHANGED <<n, d, hpc, Wire, hRes, Books, snap, streak>>

RDial ==
    /\ rpc = "dial"
    /\ IF d.fault = "dial"
         THEN /\ lbl' = Lbl("dial", "err")
              /\ out' = [out EXCEPT !.r = "err"]
              /\ rpc' = IF DevDialLeak /\ Renewing(d.kind) THEN "done" ELSE "release"
              /\ UNCHANGED <<hpc, link>>
         ELSE /\ lbl' = Lbl("dial", "ok") /\ link' = "up" /\ hpc' = "wait1" /\ rpc' = "send1" /\ UNCHANGED out
    /\ UNCHANGED <<n, d, up, down, Wallets, Books, snap, streak>>

\* every failing path of the client: ReleaseInputs, return, deferred stream close
RRelease ==
    /\ rpc = "release"
    /\ rRes' = rRes \ {n} /\ rpc' = "done"
    /\ link' = IF link \in {"up", "hclosed"} THEN "cut" ELSE link
    /\ up' = <<>> /\ down' = <<>>
    /\ lbl' = Lbl("rRelease", "ok")
    /\ UNCHANGED <<n, d, hpc, hRes, Books, out, snap, streak>>

RSend(k) ==
    /\ rpc = "send" \o ToString(k)
    /\ lbl' = Lbl("rSend", ToString(k))
    /\ CASE link = "cut" ->   \* (cannot happen before m3 is due; kept for completeness)
               /\ rpc' = "release" /\ out' = [out EXCEPT !.r = "err"] /\ UNCHANGED Wire
         [] link # "cut" /\ CutB(k) ->
               /\ link' = "cut" /\ up' = <<>> /\ down' = <<>>
               /\ rpc' = "release" /\ out' = [out EXCEPT !.r = "err"]
         [] link # "cut" /\ CutA(k) ->
               /\ link' = "cut" /\ up' = <<>> /\ down' = <<>>
               /\ rpc' = "wait" \o ToString(k + 1) /\ UNCHANGED out
         [] OTHER ->
               /\ up' = IF link = "up" THEN Append(up, k) ELSE up   \* host gone: the bytes vanish
               /\ rpc' = "wait" \o ToString(k + 1) /\ UNCHANGED <<down, link, out>>
    /\ UNCHANGED <<n, d, hpc, Wallets, Books, snap, streak>>

RRecv(k) ==
    /\ rpc = "wait" \o ToString(k)
    /\ lbl' = Lbl("rRecv", ToString(k))
    /\ \/ /\ down # <<>> /\ Head(down) = 9            \* the host refused
          /\ down' = Tail(down) /\ rpc' = "release" /\ out' = [out EXCEPT !.r = "err"]
          /\ UNCHANGED <<rCon, act, link, net>>
       \/ /\ down # <<>> /\ Head(down) = 2 /\ k = 2
          /\ down' = Tail(down)
          /\ IF d.fault = "m2low"                      \* host funding below the agreed amount
               THEN rpc' = "release" /\ out' = [out EXCEPT !.r = "err"]
               ELSE rpc' = "send3" /\ UNCHANGED out
          /\ UNCHANGED <<rCon, act, link, net>>
       \/ /\ down # <<>> /\ Head(down) = 4 /\ k = 4
          /\ down' = Tail(down)
          /\ IF M4Detected
               THEN /\ rpc' = "release" /\ out' = [out EXCEPT !.r = "err"] /\ UNCHANGED <<rCon, act, link, net>>
               ELSE /\ rpc' = "done" /\ out' = [out EXCEPT !.r = "ok"]
                    /\ rCon' = rCon \cup {n} /\ act' = n
                    /\ net' = net \cup {n}             \* the renter holds the set and can relay it itself
                    /\ link' = IF link \in {"up", "hclosed"} THEN "cut" ELSE link
       \/ /\ down = <<>> /\ link \in {"cut", "hclosed"}   \* EOF
          /\ rpc' = "release" /\ out' = [out EXCEPT !.r = "err"]
          /\ UNCHANGED <<down, rCon, act, link, net>>
    /\ UNCHANGED <<n, d, hpc, up, Wallets, hCon, dead, pool, mined, snap, streak>>

\* ------------------------------------------------------------------ host
\* every failing path of the handler after funding: deferred ReleaseInputs, then the error response
\* ("relkeep": ReleaseInputs is called but the host's outputs do not become spendable again)
HRel ==
    /\ hpc \in {"rel", "relkeep"}
    /\ hRes' = IF hpc = "relkeep" THEN hRes ELSE hRes \ {n}
    /\ down' = IF link = "up" THEN Append(down, 9) ELSE down
    /\ link' = IF link = "up" THEN "hclosed" ELSE link
    /\ hpc' = "done"
    /\ lbl' = Lbl("hRelease", "ok")
    /\ UNCHANGED <<n, d, rpc, up, rRes, Books, out, snap, streak>>

\* a refusal before anything was funded
HRefuse ==
    /\ down' = IF link = "up" THEN Append(down, 9) ELSE down
    /\ link' = IF link = "up" THEN "hclosed" ELSE link
    /\ hpc' = "done"

HRecv1 ==
    /\ hpc = "wait1"
    /\ lbl' = Lbl("hRecv", "1")
    /\ \/ /\ up # <<>> /\ Head(up) = 1
          /\ up' = Tail(up)
          /\ IF PVClass(d.pv) = "hval" \/ (Renewing(d.kind) /\ act \in dead)
               THEN HRefuse
               ELSE hpc' = "fund" /\ UNCHANGED <<down, link>>
       \/ /\ up = <<>> /\ link = "cut"
          /\ hpc' = "done" /\ UNCHANGED Wire
    /\ UNCHANGED <<n, d, rpc, Wallets, Books, out, snap, streak>>

HFund ==
    /\ hpc = "fund"
    /\ IF PVClass(d.pv) = "hfund"
         THEN /\ lbl' = Lbl("hFund", "err") /\ HRefuse /\ UNCHANGED hRes
         ELSE /\ lbl' = Lbl("hFund", "ok") /\ hRes' = hRes \cup {n}
              /\ hpc' = IF d.kind = "form" THEN "send2" ELSE "rebase"
              /\ UNCHANGED <<down, link>>
    /\ UNCHANGED <<n, d, rpc, up, rRes, Books, out, snap, streak>>

\* form: m2 is sent first and the renter inputs rebased afterwards; renew/refresh: the other way round
HRebase ==
    /\ hpc = "rebase"
    /\ lbl' = Lbl("hCheck", "rebase")
    /\ hpc' = IF RebaseFails THEN (IF DevRebaseLeak THEN "relkeep" ELSE "rel")
              ELSE IF d.kind = "form" THEN "wait3" ELSE "send2"
    /\ UNCHANGED <<n, d, rpc, Wire, Wallets, Books, out, snap, streak>>

HSend2 ==
    /\ hpc = "send2"
    /\ lbl' = Lbl("hSend", "2")
    /\ LET next == IF d.kind = "form" THEN "rebase" ELSE "wait3" IN
       CASE link # "up" -> hpc' = "rel" /\ UNCHANGED Wire
         [] link = "up" /\ CutB(2) -> /\ link' = "cut" /\ up' = <<>> /\ down' = <<>> /\ hpc' = "rel"
         [] link = "up" /\ CutA(2) -> /\ link' = "cut" /\ up' = <<>> /\ down' = <<>> /\ hpc' = next
         [] OTHER -> /\ down' = Append(down, 2) /\ hpc' = next /\ UNCHANGED <<up, link>>
    /\ UNCHANGED <<n, d, rpc, Wallets, Books, out, snap, streak>>

HRecv3 ==
    /\ hpc = "wait3"
    /\ lbl' = Lbl("hRecv", "3")
    /\ \/ /\ up # <<>> /\ Head(up) = 3
          /\ up' = Tail(up)
          /\ hpc' = IF d.fault \in {"m3sig", "m3len"} THEN "rel" ELSE "pool"
          /\ UNCHANGED <<down, link>>
       \/ /\ up = <<>> /\ link = "cut"
          /\ hpc' = "rel" /\ UNCHANGED Wire
    /\ UNCHANGED <<n, d, rpc, Wallets, Books, out, snap, streak>>

\* Once the final set is in the host's own pool there is no way back (nothing removes it): the
\* design records the contract and tells the renter whatever the relay to peers says -- the wallet
\* rebroadcasts, and the renter holds the set too.  The implementation (DevBcastFatal) instead
\* fails the RPC when the relay fails: the renter releases, while the host has recorded the
\* contract and its own inputs, though "released", stay spent by the pooled set.
HPool ==
    /\ hpc = "pool"
    /\ IF PoolFails
         THEN lbl' = Lbl("hCheck", "pool") /\ hpc' = "rel" /\ UNCHANGED pool
         ELSE lbl' = Lbl("hPool", "ok") /\ pool' = pool \cup {n} /\ hpc' = "record"
    /\ UNCHANGED <<n, d, rpc, Wire, Wallets, hCon, rCon, dead, net, mined, act, out, snap, streak>>

HRecord ==
    /\ hpc = "record"
    /\ lbl' = Lbl("hRecord", "ok")
    /\ hCon' = hCon \cup {n}
    /\ dead' = IF Renewing(d.kind) THEN dead \cup {act} ELSE dead
    /\ hpc' = "bcast"
    /\ UNCHANGED <<n, d, rpc, Wire, Wallets, rCon, pool, net, mined, act, out, snap, streak>>

HBcast ==
    /\ hpc = "bcast"
    /\ IF d.fault = "bcast"
         THEN /\ lbl' = Lbl("hBcast", "err") /\ UNCHANGED net
              /\ IF DevBcastFatal
                   THEN hpc' = "relkeep" /\ UNCHANGED out
                   ELSE hpc' = "send4" /\ out' = [out EXCEPT !.com = TRUE]
         ELSE /\ lbl' = Lbl("hBcast", "ok") /\ net' = net \cup {n}
              /\ out' = [out EXCEPT !.com = TRUE]      \* the point of no return
              /\ hpc' = "send4"
    /\ UNCHANGED <<n, d, rpc, Wire, Wallets, hCon, rCon, dead, pool, mined, act, snap, streak>>

HSend4 ==
    /\ hpc = "send4"
    /\ lbl' = Lbl("hSend", "4")
    /\ hpc' = "done"
    /\ CASE link # "up" -> UNCHANGED Wire
         [] link = "up" /\ (CutB(4) \/ CutA(4)) -> link' = "cut" /\ up' = <<>> /\ down' = <<>>
         [] OTHER -> down' = Append(down, 4) /\ link' = "hclosed" /\ UNCHANGED up
    /\ UNCHANGED <<n, d, rpc, Wallets, Books, out, snap, streak>>

\* ------------------------------------------------------------------ between attempts
Failed == out.r = "err" /\ ~out.com

End ==
    /\ rpc = "done" /\ hpc \in {"idle", "done"}
    /\ rpc' = "idle" /\ hpc' = "idle" /\ link' = "down" /\ up' = <<>> /\ down' = <<>>
    /\ streak' = IF Failed
                   THEN [k |-> streak.k + 1,
                         rRes |-> IF streak.k = 0 THEN snap.rRes ELSE streak.rRes,
                         hRes |-> IF streak.k = 0 THEN snap.hRes ELSE streak.hRes]
                   ELSE [k |-> 0, rRes |-> {}, hRes |-> {}]
    /\ lbl' = Lbl("End", out.r)
    /\ UNCHANGED <<n, d, Wallets, Books, out, snap>>

\* a block confirms whatever reached the network: the inputs are spent, the contracts exist
Mine ==
    /\ rpc = "idle" /\ net # {}
    /\ mined' = mined \cup net /\ rRes' = rRes \ net /\ hRes' = hRes \ net /\ pool' = pool \ net /\ net' = {}
    /\ out' = [r |-> "none", com |-> FALSE]
    /\ streak' = [k |-> 0, rRes |-> {}, hRes |-> {}]
    /\ lbl' = Lbl("Mine", "ok")
    /\ UNCHANGED <<n, d, rpc, hpc, Wire, hCon, rCon, dead, act, snap>>

RenterNext == RFund \/ RDial \/ RRelease \/ RSend(1) \/ RSend(3) \/ RRecv(2) \/ RRecv(4)
HostNext   == HRecv1 \/ HFund \/ HRebase \/ HSend2 \/ HRecv3 \/ HPool \/ HRecord \/ HBcast \/ HSend4 \/ HRel
Next == (\E x \in Descs : RStart(x)) \/ RenterNext \/ HostNext \/ End \/ Mine

Spec == Init /\ [][Next]_vars

-----------------------------------------------------------------------------
(* The property.                                                           *)
Settled == rpc = "idle" /\ out.r # "none"

TypeOK ==
    /\ n \in 0..MaxAttempts
    /\ rRes \subseteq 1..MaxAttempts /\ hRes \subseteq 1..MaxAttempts
    /\ hCon \subseteq 0..MaxAttempts /\ rCon \subseteq 0..MaxAttempts
    /\ dead \subseteq 0..MaxAttempts /\ act \in 0..MaxAttempts
    /\ pool \subseteq 1..MaxAttempts /\ net \subseteq pool
    /\ link \in {"down", "up", "hclosed", "cut"}
    /\ out.r \in {"none", "ok", "err"} /\ out.com \in BOOLEAN

\* success: both hold the contract, the set is in the pool and on the network, both fundings are
\* committed to it, and (renewals) the old contract is finalized exactly now
SuccessAgreement ==
    Settled /\ out.r = "ok" =>
        /\ out.com /\ n \in hCon /\ n \in rCon /\ act = n
        /\ n \in pool /\ n \in net /\ n \in hRes /\ n \in rRes
        /\ hCon = snap.hCon \cup {n}
        /\ dead = IF Renewing(d.kind) THEN snap.dead \cup {snap.act} ELSE snap.dead
\* whatever the renter holds, the host holds
RenterImpliesHost == rCon \subseteq hCon
\* mined contracts are exactly those that reached the network, and the host knows each of them
MinedKnown == mined \subseteq hCon

\* failure (the host's broadcast did not happen): no contract, every reservation released
FailureLeavesNoTrace ==
    Settled /\ Failed =>
        /\ hCon = snap.hCon /\ dead = snap.dead
        /\ hRes = snap.hRes /\ rRes = snap.rRes
        /\ rCon \subseteq snap.hCon /\ act = snap.act

\* the host passed its point of no return but the renter never learned: the property is silent
\* about the renter's view; the host must be consistent and the renter must have let go
Unacked ==
    Settled /\ out.r = "err" /\ out.com =>
        /\ n \in hCon /\ n \in net /\ n \in hRes /\ n \notin rCon /\ rRes = snap.rRes

\* k consecutive failures leave the spendable sets where they were
NoExhaustion == rpc = "idle" /\ streak.k > 0 => rRes = streak.rRes /\ hRes = streak.hRes

\* the host records a contract only once the set is in its pool; nothing is recorded twice
RecordOnlyPooled == (hCon \ {0}) \subseteq (pool \cup mined)
=============================================================================
